/-
C04 (batch part, joined with the algebra) — the batched fantasy call is, element by element, the typed model `step?` of
`Model/Fantasy.lean`, and `fantasy_fold_eq_scratch` lifts to batches.

* `elem_mean_cache_eq_step`: the element-level dataflow `elemFantasy` that `Props/C04Batch.lean` reads off the generated
  shape program, interpreted on matrices (`Model/FantasyDyn.lean`), computes the mean cache of `Fantasy.step?` — with the
  `unsqueeze(-1)` / `squeeze(-1)` / `transpose` / `cat(dim=-1)` exactly where the source has them.
* `fantasy_batch_mean_cache_eq_step`: hence element `e` of the batched `mean_cache` is `step?` on the state of replica
  `bidxR mb e`, the covariance blocks of element `bidxR ib' e` and the targets `bidxR tb e`.
* `batched_fold_eq_scratch`: a batched chain of fantasy steps, each reading its predecessor through `bidxR`, computes at
  every batch index the solve of the fully assembled system of *that* element's data (`fantasy_fold_eq_scratch`).
-/
import GPVerif.Props.C04Batch
import GPVerif.Model.FantasyDyn
import GPVerif.Bridge.FantasyModel

namespace C04Batch
open Bcast Choreo FShapes Fantasy FantasyDyn FantasyBridge Gen.FantasyShapes Matrix

variable {α : Type} [Field α] [DecidableEq α] {n f : Nat}

/-- **the unbatched dataflow is `step?`.**  With the leaves of the algebra (`root_inv_decomposition` of the source,
`fant_train_covar`, the fantasy block with noise, `fant_mean`) holding `Kinv`, `U`, `S`, `μ_f`, the cached `mean_cache`
`α` and the fantasy targets `y_f`, the mean cache that the generated program computes on one batch element is the mean
cache of `step? ⟨Kinv, α⟩ U S (y_f − μ_f)` (`none` exactly when the Schur complement has no inverse). -/
theorem elem_mean_cache_eq_step (L : Nat → List (V α) → V α) (st : FState n α) (U : DMat f n α) (S : DMat f f α)
    (targets fantMean : DMat f 1 α) (a b c th l k : V α)
    (hK : L Prim.rootInvDecomp [l] = dyn st.Kinv)
    (hU : L Prim.toDense [L Prim.sliceFT [L Prim.priorCovar [th, L (Prim.cat 2) [a, L Prim.ensure2d [c]]]]] = dyn U)
    (hS : L Prim.likCovar [L Prim.sliceFF [L Prim.priorCovar [th, L (Prim.cat 2) [a, L Prim.ensure2d [c]]]], th,
      L Prim.ensure2d [c], k] = dyn S)
    (hm : L Prim.sliceMeanF [L Prim.priorMean [th, L (Prim.cat 2) [a, L Prim.ensure2d [c]]]] = dyn fantMean) :
    (elemFantasy (dynI L) a b c (dyn targets) th l (dyn st.mean) k).meanCache =
      (step? st U S (targets.sub fantMean)).bind fun s => dyn s.mean := by
  have e1 : ∀ x y, dynI L Prim.matmul [x, y] = dmul x y := fun _ _ => rfl
  have e2 : ∀ x y, dynI L Prim.sub [x, y] = dsub x y := fun _ _ => rfl
  have e3 : ∀ x, dynI L Prim.mT [x] = dT x := fun _ => rfl
  have e4 : ∀ x y, dynI L Prim.matvec [x, y] = dmul x y := fun _ _ => rfl
  have e5 : ∀ x, dynI L Prim.unsqLast [x] = x := fun _ => rfl
  have e6 : ∀ x, dynI L Prim.chol [x] = x := fun _ => rfl
  have e7 : ∀ x y, dynI L Prim.cholSolve [x, y] = dsolve x y := fun _ _ => rfl
  have e8 : ∀ x, dynI L Prim.sqLast [x] = x := fun _ => rfl
  have e9 : ∀ x y, dynI L (Prim.cat 1) [x, y] = dvcat x y := fun _ _ => rfl
  have l1 : ∀ x, dynI L Prim.rootInvDecomp [x] = L Prim.rootInvDecomp [x] := fun _ => rfl
  have l2 : ∀ x, dynI L Prim.toDense [x] = L Prim.toDense [x] := fun _ => rfl
  have l3 : ∀ x, dynI L Prim.sliceFT [x] = L Prim.sliceFT [x] := fun _ => rfl
  have l4 : ∀ x y, dynI L Prim.priorCovar [x, y] = L Prim.priorCovar [x, y] := fun _ _ => rfl
  have l5 : ∀ x y, dynI L (Prim.cat 2) [x, y] = L (Prim.cat 2) [x, y] := fun _ _ => rfl
  have l6 : ∀ x, dynI L Prim.ensure2d [x] = L Prim.ensure2d [x] := fun _ => rfl
  have l7 : ∀ x y z w, dynI L Prim.likCovar [x, y, z, w] = L Prim.likCovar [x, y, z, w] := fun _ _ _ _ => rfl
  have l8 : ∀ x, dynI L Prim.sliceFF [x] = L Prim.sliceFF [x] := fun _ => rfl
  have l9 : ∀ x, dynI L Prim.sliceMeanF [x] = L Prim.sliceMeanF [x] := fun _ => rfl
  have l10 : ∀ x y, dynI L Prim.priorMean [x, y] = L Prim.priorMean [x, y] := fun _ _ => rfl
  simp only [elemFantasy, e1, e2, e3, e4, e5, e6, e7, e8, e9, l1, l2, l3, l4, l5, l6, l7, l8, l9, l10, hK, hU, hS, hm,
    dmul_dyn, dsub_dyn, dT_dyn, dsolve_dyn]
  simp only [step?, fantSolve, schur, cacheLower, cacheUpper]
  cases (S.sub (U.mul (st.Kinv.mul U.transpose))).inv? with
  | none => simp
  | some Si => simp

/-- **the batched mean cache is `step?`, element by element.**  `st i` = solve state of replica `i` of the model
(`mean_cache[i]`, `root_inv_decomposition` of `lik_train_train_covar[i]`), `targets j` = fantasy targets of element `j`;
`U e`, `S e`, `μ e` = the covariance blocks and prior mean that element `e` of the joint prior holds (they are functions
of the training inputs of replica `bidxR mb e` and the fantasy inputs `bidxR ib e` only — `fantasy_train_data_elementwise`).
Then `mean_cache` of the fantasy strategy has batch shape `broadcast(tb, ib')` and its element `e` is the mean cache of
`step? (st (bidxR mb e)) (U e) (S e) (targets (bidxR tb e) − μ e)`. -/
theorem fantasy_batch_mean_cache_eq_step (L : Nat → List (V α) → V α) (trainX trainY xf yf theta ltt mc kw : T (V α))
    {mb : RShape} (h1 : trainX.shape = mb) (h2 : trainY.shape = mb) (h3 : theta.shape = mb) (h4 : ltt.shape = mb)
    (h5 : mc.shape = mb)
    (st : RIdx → FState n α) (targets : RIdx → DMat f 1 α)
    (U : RIdx → DMat f n α) (S : RIdx → DMat f f α) (fantMean : RIdx → DMat f 1 α)
    (hmc : ∀ i, mc.get i = dyn (st i).mean) (hyf : ∀ j, yf.get j = dyn (targets j))
    (hK : ∀ i, L Prim.rootInvDecomp [ltt.get i] = dyn (st i).Kinv)
    (hU : ∀ e, L Prim.toDense [L Prim.sliceFT [L Prim.priorCovar [theta.get (bidxR mb e),
      L (Prim.cat 2) [trainX.get (bidxR mb e), L Prim.ensure2d [xf.get (bidxR xf.shape e)]]]]] = dyn (U e))
    (hS : ∀ e, L Prim.likCovar [L Prim.sliceFF [L Prim.priorCovar [theta.get (bidxR mb e),
      L (Prim.cat 2) [trainX.get (bidxR mb e), L Prim.ensure2d [xf.get (bidxR xf.shape e)]]]], theta.get (bidxR mb e),
      L Prim.ensure2d [xf.get (bidxR xf.shape e)], kw.get (bidxR kw.shape e)] = dyn (S e))
    (hm : ∀ e, L Prim.sliceMeanF [L Prim.priorMean [theta.get (bidxR mb e),
      L (Prim.cat 2) [trainX.get (bidxR mb e), L Prim.ensure2d [xf.get (bidxR xf.shape e)]]]] = dyn (fantMean e))
    {E' : Env (V α)} (hE : run (dynI L) fantasyProgram (fantasyEnv nShapes trainX trainY xf yf theta ltt mc kw) = some E') :
    OutputIs E' Reg.outMeanCache (cacheShape mb xf.shape yf.shape)
      (fun e => (step? (st (bidxR mb e)) (U e) (S e) ((targets (bidxR yf.shape e)).sub (fantMean e))).bind
        fun s => dyn s.mean) := by
  obtain ⟨_, hall⟩ := fantasy_batch_shapes (dynI L) trainX trainY xf yf theta ltt mc kw h1 h2 h3 h4 h5
  obtain ⟨_, _, _, _, _, _, _, _, ⟨t, ht, hts, hget⟩, _⟩ := hall E' hE
  refine ⟨t, ht, hts, fun e he => ?_⟩
  rw [hget e he]
  simp only [hmc, hyf]
  exact elem_mean_cache_eq_step L (st (bidxR mb e)) (U e) (S e) (targets (bidxR yf.shape e)) (fantMean e) _ _ _ _ _ _
    (hK _) (hU e) (hS e) (hm e)

/-! ### fantasies of fantasies, batched -/

/-- a batched chain of fantasy steps: batched base data, then per step batched blocks `(U, S, r_f)`; `sh` is the batch
shape of the state after the step (`cacheShape` of the theorem above) -/
inductive BChain (α : Type) : Nat → Type
  | base {n : Nat} (A : T (DMat n n α)) (r : T (DMat n 1 α)) : BChain α n
  | step {n f : Nat} (c : BChain α n) (sh : RShape) (U : T (DMat f n α)) (S : T (DMat f f α)) (rf : T (DMat f 1 α)) :
      BChain α (n + f)

def BChain.shape : {n : Nat} → BChain α n → RShape
  | _, .base A _ => A.shape
  | _, .step _ sh _ _ _ => sh

/-- the chain of batch element `e`: every level is read at `bidxR (its shape) e`, the way the batched code reads it -/
def BChain.at : {n : Nat} → BChain α n → RIdx → Steps α n
  | _, .base A r, e => .base (A.get (bidxR A.shape e)) (r.get (bidxR r.shape e))
  | _, .step c _ U S rf, e =>
    .step (c.at (bidxR c.shape e)) (U.get (bidxR U.shape e)) (S.get (bidxR S.shape e)) (rf.get (bidxR rf.shape e))

/-- the batched incremental computation: element `e` of each new state is `step?` of element `bidxR prev.shape e` of
the previous one (what `fantasy_batch_mean_cache_eq_step` says the code does) -/
def BChain.foldB : {n : Nat} → BChain α n → RIdx → Option (FState n α)
  | _, .base A r, e => init? (A.get (bidxR A.shape e)) (r.get (bidxR r.shape e))
  | _, .step c _ U S rf, e =>
    (c.foldB (bidxR c.shape e)).bind fun st =>
      step? st (U.get (bidxR U.shape e)) (S.get (bidxR S.shape e)) (rf.get (bidxR rf.shape e))

theorem BChain.foldB_eq_fold : ∀ {n : Nat} (c : BChain α n) (e : RIdx), c.foldB e = (c.at e).fold?
  | _, .base _ _, _ => rfl
  | _, .step c _ U S rf, e => by
    simp only [BChain.foldB, BChain.at, Steps.fold?, BChain.foldB_eq_fold c]
    cases (c.at (bidxR c.shape e)).fold? <;> rfl

/-- **`fantasy_fold_eq_scratch` lifted to batches**: after any number of batched fantasy steps, the state of batch
element `e` is the solve of the fully assembled system of *that element's* data — the base data of the replica and the
fantasy blocks that `e` reads at every level: carried inverse `= J_e⁻¹`, mean cache `= J_e⁻¹ y_e`. -/
theorem batched_fold_eq_scratch {n : Nat} (c : BChain α n) (e : RIdx) (hsym : (c.at e).Symm) {st : FState n α}
    (h : c.foldB e = some st) :
    IsUnit (c.at e).assemble.1.toMatrix.det ∧
    st.Kinv.toMatrix = (c.at e).assemble.1.toMatrix⁻¹ ∧
    st.mean.toMatrix = (c.at e).assemble.1.toMatrix⁻¹ * (c.at e).assemble.2.toMatrix :=
  fold?_spec (c.at e) hsym (by rw [← BChain.foldB_eq_fold]; exact h)

/-! ### non-vacuity -/

section examples

private def bA : T (DMat 1 1 ℚ) := ⟨[2], fun i => DMat.ofRaw #[#[(2 : ℚ) + (i.headD 0 : Nat)]]⟩
private def br : T (DMat 1 1 ℚ) := ⟨[2], fun i => DMat.ofRaw #[#[(1 : ℚ) - (i.headD 0 : Nat)]]⟩
private def bU : T (DMat 1 1 ℚ) := ⟨[2, 3], fun i => DMat.ofRaw #[#[(1 : ℚ) / (2 + (i.headD 0 : Nat) + (i.getD 1 0 : Nat))]]⟩
private def bS : T (DMat 1 1 ℚ) := ⟨[2, 3], fun _ => DMat.ofRaw #[#[(3 : ℚ)]]⟩
private def brf : T (DMat 1 1 ℚ) := ⟨[2, 3], fun i => DMat.ofRaw #[#[(i.getD 1 0 : Nat) - (1 : ℚ)]]⟩
private def bChain : BChain ℚ (1 + 1) := .step (.base bA br) [2, 3] bU bS brf

/-- a model batch `(2,)`, fantasies `(3, 2)`: element `(f, b) = (2, 1)` (innermost-first `[1, 2]`) reads replica 1 -/
example : ((bChain.foldB [1, 2]).isSome = true) ∧ bChain.foldB [1, 2] = ((BChain.base bA br).at [1]).fold?.bind
    (fun st => step? st (bU.get [1, 2]) (bS.get [1, 2]) (brf.get [1, 2])) := by
  constructor
  · decide +kernel
  · rfl

end examples

end C04Batch

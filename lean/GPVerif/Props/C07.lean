/-
C07 — every covariance handed out is a valid covariance.

All statements are about `Matrix.PosSemidef` / `Matrix.PosDef` of Mathlib.  `K` is any field with the order /
star structure Mathlib's Schur-complement lemma needs (instances: `ℚ` — what the driver executes — and `ℝ`);
the Schur-product / Kronecker facts are stated over `ℝ` (Mathlib proves them for `RCLike`).
Model-level statements go through `DMat.toMatrix`, i.e. they are about the very functions
`drivers/C07.lean` runs (`posteriorCov?`, `reduction?`, `marginalCov`, `variationalCov`, `psdCert?`,
`negWitness?`, `Clamp.run Gen.C07.varianceClamp`, `NExpr.eval Gen.C07.greaterThanTransform`).

PROVED for all sizes / inputs / hyperparameters: RBF (also ARD), RQ (also ARD), Matérn-½, -3/2 and -5/2 in input dimension
one, the triangle kernel (piecewise polynomial q = 0, d = 1), Hamming-IMQ (any sequence length / vocabulary),
PolynomialKernelGrad (value / gradient blocks of `(⟨x,y⟩+c)^p`, every n, d, p), RBFKernelGrad (shared and ARD lengthscales,
every n, d), cosine (d = 1),
periodic, spectral mixture, linear, constant, polynomial, index, multitask / LCM (Kronecker), cylindrical (given a PSD
radial factor — the radial kernel acts on one-dimensional radii, so RBF / RQ / Matérn bases are covered), scale, sums,
products; and the general tools `gram_l2_psd` / `gram_autocorrelation_psd` (`k(a,b) = ∫ g(t−a) g(t−b) dt`),
`gram_scale_mixture_psd`, `gram_exp_psd`.

NOT PROVED (observed only, see `gram_psd_partial` at the end): positive definiteness of the Matérn covariance
*functions* in input dimension d > 1 (ν = ½, 3/2, 5/2), of the piecewise-polynomial functions for q ≥ 1 (any d) and q = 0 in
d > 1, and of the derivative kernels RBFKernelGradGrad (second-order jets) and Matern52KernelGrad.  The first two are
Bochner / Schoenberg-level harmonic analysis in ℝ^d which Mathlib does not provide (in d = 1 the autocorrelation representation
replaces it); RBFKernelGradGrad needs the second-order version of `gram_jet_product_psd` / `gram_exp_grad_psd`, Matern52KernelGrad
a differentiable integral representation of the Matérn kernel in ℝ^d.
-/
import GPVerif.Bridge.PSD
import GPVerif.Bridge.RBF
import GPVerif.Bridge.RQ
import GPVerif.Bridge.Matern12
import GPVerif.Bridge.Autocorr
import GPVerif.Bridge.HammingIMQ
import GPVerif.Bridge.JetProduct
import GPVerif.Bridge.JetExp

open Matrix
open scoped Kronecker

set_option linter.unusedSectionVars false
set_option linter.style.haveILetI false
set_option linter.overlappingInstances false

namespace C07

/-! ## 1. Conditioning -/

section schur
variable {K : Type*} [Field K] [PartialOrder K] [StarRing K] [StarOrderedRing K]
variable {n m n₁ : Type*} [Fintype n] [Fintype m] [Fintype n₁] [DecidableEq n] [DecidableEq m] [DecidableEq n₁]

/-- **posterior covariance is PSD**: if the joint prior covariance `[A B; Bᴴ D]` of (training, test) values is
PSD and the training block `A` (kernel + noise) is PD, the Schur complement `D − Bᴴ A⁻¹ B` is PSD. -/
theorem posterior_psd (A : Matrix n n K) (B : Matrix n m K) (D : Matrix m m K)
    (hJ : (fromBlocks A B Bᴴ D).PosSemidef) (hA : A.PosDef) :
    (D - Bᴴ * A⁻¹ * B).PosSemidef := by
  letI := hA.isUnit.invertible
  exact (PosDef.fromBlocks₁₁ B D hA).mp hJ

/-- **conditioning never adds uncertainty**: prior − posterior `= Bᴴ A⁻¹ B` is PSD. -/
theorem prior_sub_posterior_psd (A : Matrix n n K) (B : Matrix n m K) (hA : A.PosDef) :
    (Bᴴ * A⁻¹ * B).PosSemidef :=
  hA.inv.posSemidef.conjTranspose_mul_mul_same B

/-- prior − posterior, spelled with the prior block `D`. -/
theorem prior_sub_posterior_psd_explicit (A : Matrix n n K) (B : Matrix n m K) (D : Matrix m m K) (hA : A.PosDef) :
    (D - (D - Bᴴ * A⁻¹ * B)).PosSemidef := by
  rw [sub_sub_cancel]; exact prior_sub_posterior_psd A B hA

/-- **more data, less variance** (Loewner order): conditioning on the rows selected by an injective `e`
(a subset of the training set) leaves at least as much posterior covariance as conditioning on all rows.
`A` is the full training covariance (PD), `B` the full train–test cross covariance. -/
theorem more_data_less_variance (A : Matrix n n K) (B : Matrix n m K) (D : Matrix m m K)
    (hA : A.PosDef) (e : n₁ → n) (he : Function.Injective e) :
    ((D - (B.submatrix e id)ᴴ * (A.submatrix e e)⁻¹ * B.submatrix e id) -
      (D - Bᴴ * A⁻¹ * B)).PosSemidef := by
  letI := hA.isUnit.invertible
  have hA₁ : (A.submatrix e e).PosDef := hA.submatrix he
  letI := hA₁.isUnit.invertible
  -- `[A B; Bᴴ X]` with `X = Bᴴ A⁻¹ B` has Schur complement `0`
  have hX : (fromBlocks A B Bᴴ (Bᴴ * A⁻¹ * B)).PosSemidef :=
    (PosDef.fromBlocks₁₁ B _ hA).mpr (by rw [sub_self]; exact PosSemidef.zero)
  -- its principal submatrix on (selected rows, test rows)
  have hsub := hX.submatrix (Sum.map e id : n₁ ⊕ m → n ⊕ m)
  have hblk : (fromBlocks A B Bᴴ (Bᴴ * A⁻¹ * B)).submatrix (Sum.map e id) (Sum.map e id) =
      fromBlocks (A.submatrix e e) (B.submatrix e id) (B.submatrix e id)ᴴ (Bᴴ * A⁻¹ * B) := by
    ext i j
    rcases i with i | i <;> rcases j with j | j <;> simp [conjTranspose_apply]
  rw [hblk] at hsub
  have := (PosDef.fromBlocks₁₁ (B.submatrix e id) _ hA₁).mp hsub
  have key : (D - (B.submatrix e id)ᴴ * (A.submatrix e e)⁻¹ * B.submatrix e id) - (D - Bᴴ * A⁻¹ * B) =
      Bᴴ * A⁻¹ * B - (B.submatrix e id)ᴴ * (A.submatrix e e)⁻¹ * B.submatrix e id := by abel
  rw [key]; exact this

/-- … in particular every posterior *variance* can only go down when observations are added. -/
theorem more_data_less_variance_diag (A : Matrix n n K) (B : Matrix n m K) (D : Matrix m m K)
    (hA : A.PosDef) (e : n₁ → n) (he : Function.Injective e) (i : m) :
    (D - Bᴴ * A⁻¹ * B) i i ≤
      (D - (B.submatrix e id)ᴴ * (A.submatrix e e)⁻¹ * B.submatrix e id) i i := by
  have h := (more_data_less_variance A B D hA e he).diag_nonneg (i := i)
  rw [Matrix.sub_apply, sub_nonneg] at h
  exact h

/-- **marginal covariance** (`likelihood(f)`): PSD + PSD noise is PSD. -/
theorem marginal_psd [AddLeftMono K] {C R : Matrix m m K} (hC : C.PosSemidef) (hR : R.PosSemidef) :
    (C + R).PosSemidef := hC.add hR

/-- diagonal noise with entries `≥ 0` (homoskedastic `σ² I`, fixed noise, per-task noise). -/
theorem marginal_psd_diag [AddLeftMono K] {C : Matrix m m K} (hC : C.PosSemidef) (d : m → K) (hd : ∀ i, 0 ≤ d i) :
    (C + diagonal d).PosSemidef := hC.add (PosSemidef.diagonal hd)

/-- with strictly positive noise the marginal is PD (this is the `A` of `posterior_psd`). -/
theorem marginal_posDef [AddLeftMono K] [NoZeroDivisors K] [Nontrivial K] {C : Matrix m m K} (hC : C.PosSemidef)
    (d : m → K) (hd : ∀ i, 0 < d i) : (C + diagonal d).PosDef :=
  PosDef.posSemidef_add hC (PosDef.diagonal hd)

/-- **variational predictive covariance** (whitened strategy): `K_xx − Bᴴ (1 − S) B` is PSD when the
variational covariance `S` is PSD and the prior Schur complement `K_xx − Bᴴ B` is PSD. -/
theorem variational_cov_psd [AddLeftMono K] {k : Type*} [Fintype k] [DecidableEq k]
    (Kxx : Matrix m m K) (B : Matrix k m K) (S : Matrix k k K)
    (hS : S.PosSemidef) (hP : (Kxx - Bᴴ * B).PosSemidef) :
    (Kxx - Bᴴ * (1 - S) * B).PosSemidef := by
  have : Kxx - Bᴴ * (1 - S) * B = (Kxx - Bᴴ * B) + Bᴴ * S * B := by
    simp only [Matrix.mul_sub, Matrix.sub_mul, Matrix.mul_one]; abel
  rw [this]
  exact hP.add (hS.conjTranspose_mul_mul_same B)

/-- the hypothesis `hP` of `variational_cov_psd` is the prior Schur complement: with `L Lᴴ = K_zz` and
`B = L⁻¹ K_zx`, `Bᴴ B = K_xz K_zz⁻¹ K_zx`. -/
theorem whitened_gram_eq {k : Type*} [Fintype k] [DecidableEq k]
    (L Kzz : Matrix k k K) (Kzx : Matrix k m K) (hL : L * Lᴴ = Kzz) (hu : IsUnit L) :
    (L⁻¹ * Kzx)ᴴ * (L⁻¹ * Kzx) = Kzxᴴ * Kzz⁻¹ * Kzx := by
  have hdet : IsUnit L.det := (Matrix.isUnit_iff_isUnit_det L).mp hu
  have hdetH : IsUnit Lᴴ.det := by
    rw [det_conjTranspose]; exact hdet.star
  rw [← hL, Matrix.mul_inv_rev, conjTranspose_mul, conjTranspose_nonsing_inv]
  simp only [Matrix.mul_assoc]

/-- **variational predictive covariance** (unwhitened strategy):
`K_xx − K_xz K_zz⁻¹ (K_zz − S) K_zz⁻¹ K_zx` is PSD when `S` is PSD and the prior Schur complement is. -/
theorem unwhitened_variational_cov_psd [AddLeftMono K] {k : Type*} [Fintype k] [DecidableEq k]
    (Kxx : Matrix m m K) (Kzz : Matrix k k K) (Kzx : Matrix k m K) (S : Matrix k k K)
    (hZ : Kzz.PosDef) (hS : S.PosSemidef) (hP : (Kxx - Kzxᴴ * Kzz⁻¹ * Kzx).PosSemidef) :
    (Kxx - Kzxᴴ * Kzz⁻¹ * (Kzz - S) * Kzz⁻¹ * Kzx).PosSemidef := by
  letI := hZ.isUnit.invertible
  have hH : Kzz⁻¹ᴴ = Kzz⁻¹ := by rw [conjTranspose_nonsing_inv, hZ.1.eq]
  have : Kxx - Kzxᴴ * Kzz⁻¹ * (Kzz - S) * Kzz⁻¹ * Kzx =
      (Kxx - Kzxᴴ * Kzz⁻¹ * Kzx) + (Kzz⁻¹ * Kzx)ᴴ * S * (Kzz⁻¹ * Kzx) := by
    rw [conjTranspose_mul, hH]
    simp only [Matrix.mul_sub, Matrix.sub_mul, Matrix.mul_assoc]
    rw [Matrix.inv_mul_cancel_left_of_invertible]
    abel
  rw [this]
  exact hP.add (hS.conjTranspose_mul_mul_same _)

end schur

/-! ## 2. Gram matrices that are PSD by construction (kernels built from inner products) -/

section gram
variable {ι κ : Type*} [Fintype ι] [Fintype κ]

/-- `LinearKernel`: `v · X Xᵀ`, `v ≥ 0`. -/
theorem gram_linear_psd {d : Type*} [Fintype d] (X : Matrix ι d ℝ) {v : ℝ} (hv : 0 ≤ v) :
    (v • (X * Xᵀ)).PosSemidef := by
  have h : (X * Xᴴ).PosSemidef := posSemidef_self_mul_conjTranspose X
  rw [conjTranspose_eq_transpose_of_trivial] at h
  exact h.smul hv

/-- `ConstantKernel`: the constant matrix `c ≥ 0`. -/
theorem gram_constant_psd {c : ℝ} (hc : 0 ≤ c) : (of fun (_ _ : ι) => c).PosSemidef :=
  constMat_psd (ι := ι) hc

/-- `ScaleKernel`: `s · K`, `s ≥ 0`. -/
theorem gram_scale_psd {Kx : Matrix ι ι ℝ} (h : Kx.PosSemidef) {s : ℝ} (hs : 0 ≤ s) :
    (s • Kx).PosSemidef := h.smul hs

/-- `AdditiveKernel`. -/
theorem gram_sum_psd {K₁ K₂ : Matrix ι ι ℝ} (h₁ : K₁.PosSemidef) (h₂ : K₂.PosSemidef) :
    (K₁ + K₂).PosSemidef := h₁.add h₂

/-- `ProductKernel` (entrywise product; Schur product theorem). -/
theorem gram_product_psd {K₁ K₂ : Matrix ι ι ℝ} (h₁ : K₁.PosSemidef) (h₂ : K₂.PosSemidef) :
    (K₁ ⊙ K₂).PosSemidef := h₁.hadamard h₂

/-- `PolynomialKernel`: `(⟨x_i, x_j⟩ + c)^p` entrywise, `c ≥ 0`, every power `p`
(Schur product theorem + induction on `p`). -/
theorem gram_polynomial_psd {d : Type*} [Fintype d] (X : Matrix ι d ℝ) {c : ℝ} (hc : 0 ≤ c) (p : ℕ) :
    (of fun i j => ((X * Xᵀ) i j + c) ^ p : Matrix ι ι ℝ).PosSemidef := by
  have hlin : (X * Xᵀ).PosSemidef := by simpa using gram_linear_psd X zero_le_one
  have hbase : (X * Xᵀ + constMat ι c).PosSemidef := hlin.add (constMat_psd hc)
  have : (of fun i j => ((X * Xᵀ) i j + c) ^ p : Matrix ι ι ℝ) = hpow (X * Xᵀ + constMat ι c) p := by
    ext i j; simp [hpow, constMat]
  rw [this]
  exact hpow_psd hbase p

/-- entrywise power of any PSD matrix (e.g. a product of `p` copies of the same kernel). -/
theorem gram_hadamard_pow_psd {Kx : Matrix ι ι ℝ} (h : Kx.PosSemidef) (p : ℕ) :
    (of fun i j => Kx i j ^ p : Matrix ι ι ℝ).PosSemidef := hpow_psd h p

/-- `IndexKernel`: `(B Bᵀ + diag v)[idx, idx]`, `v ≥ 0`, for any index vector (repeats allowed). -/
theorem gram_index_psd {t r : Type*} [Fintype t] [Fintype r] [DecidableEq t]
    (F : Matrix t r ℝ) (v : t → ℝ) (hv : ∀ a, 0 ≤ v a) (idx : ι → t) :
    ((F * Fᵀ + diagonal v).submatrix idx idx).PosSemidef := by
  have h : (F * Fᴴ).PosSemidef := posSemidef_self_mul_conjTranspose F
  rw [conjTranspose_eq_transpose_of_trivial] at h
  exact (h.add (PosSemidef.diagonal hv)).submatrix idx

/-- `MultitaskKernel` / one `LCMKernel` term: Kronecker product of a data Gram matrix and a task covariance,
in any flattening (interleaved or not: `e` is the layout map). -/
theorem gram_kronecker_psd {N : Type*} {Kx : Matrix ι ι ℝ} {Kt : Matrix κ κ ℝ} (hx : Kx.PosSemidef) (ht : Kt.PosSemidef)
    (e : N → ι × κ) : ((Kx ⊗ₖ Kt).submatrix e e).PosSemidef :=
  (hx.kronecker ht).submatrix e

/-- `LCMKernel`: a finite sum of Kronecker terms. -/
theorem gram_lcm_psd {q : Type*} (s : Finset q) (Kx : q → Matrix ι ι ℝ) (Kt : q → Matrix κ κ ℝ)
    (hx : ∀ a, (Kx a).PosSemidef) (ht : ∀ a, (Kt a).PosSemidef) :
    (∑ a ∈ s, Kx a ⊗ₖ Kt a).PosSemidef :=
  posSemidef_sum s fun a _ => (hx a).kronecker (ht a)

/-- entrywise exponential of a PSD matrix (limit of the PSD matrices `∑_{k<N} G^{∘k}/k!`). -/
theorem gram_exp_psd {G : Matrix ι ι ℝ} (hG : G.PosSemidef) :
    (of fun i j => Real.exp (G i j) : Matrix ι ι ℝ).PosSemidef := hexp_psd hG

/-- **`RBFKernel`**: `exp(−‖x_i − x_j‖² / (2ℓ²))` is PSD for every finite set of inputs (duplicates and nearly
coincident rows included), every input dimension and every lengthscale.
(`exp(−‖x−y‖²/2ℓ²) = a(x) a(y) exp(⟨x,y⟩/ℓ²)` and `gram_exp_psd`.)  ARD lengthscales: rescale the columns of `X`. -/
theorem gram_rbf_psd {d : Type*} [Fintype d] (X : Matrix ι d ℝ) (ℓ : ℝ) :
    (of fun i j => Real.exp (-(∑ k, (X i k - X j k) ^ 2) / (2 * ℓ ^ 2)) : Matrix ι ι ℝ).PosSemidef :=
  rbf_gram_psd X ℓ

/-- coefficient form `exp(−c ‖x_i − x_j‖²)`, `c ≥ 0`. -/
theorem gram_rbf_psd_coeff {d : Type*} [Fintype d] (X : Matrix ι d ℝ) {c : ℝ} (hc : 0 ≤ c) :
    (of fun i j => Real.exp (-c * ∑ k, (X i k - X j k) ^ 2) : Matrix ι ι ℝ).PosSemidef :=
  rbf_gram_psd_coeff X hc

/-- **`CosineKernel`, `d = 1`**: `cos(π |x_i − x_j| / p)` (rank two: `cos a cos b + sin a sin b`). -/
theorem gram_cosine_psd (x : ι → ℝ) (p : ℝ) :
    (of fun i j => Real.cos (Real.pi * (|x i - x j| / p)) : Matrix ι ι ℝ).PosSemidef :=
  cosine_gram_psd x p

/-- **`PeriodicKernel`**: `exp(−2 Σ_k sin²(π |x_ik − x_jk| / p_k) / ℓ_k)`, all `ℓ_k > 0`, any dimension
(`−2 sin²θ/ℓ = (cos 2θ − 1)/ℓ`, `gram_exp_psd` of the cosine Gram matrix, product over dimensions). -/
theorem gram_periodic_psd {d : Type*} [Fintype d] (X : Matrix ι d ℝ) (p ℓ : d → ℝ) (hℓ : ∀ k, 0 < ℓ k) :
    (of fun i j => Real.exp (-2 * ∑ k, Real.sin (Real.pi * (|X i k - X j k| / p k)) ^ 2 / ℓ k) :
      Matrix ι ι ℝ).PosSemidef := by
  have h := hprod_psd Finset.univ
    (fun k => (of fun i j => Real.exp (-2 * Real.sin (Real.pi * (|X i k - X j k| / p k)) ^ 2 / ℓ k) : Matrix ι ι ℝ))
    (fun k _ => periodic_gram_psd (fun i => X i k) (p k) (hℓ k))
  have e : (of fun i j => Real.exp (-2 * ∑ k, Real.sin (Real.pi * (|X i k - X j k| / p k)) ^ 2 / ℓ k) :
      Matrix ι ι ℝ) = of fun i j => ∏ k, (of fun i j =>
        Real.exp (-2 * Real.sin (Real.pi * (|X i k - X j k| / p k)) ^ 2 / ℓ k) : Matrix ι ι ℝ) i j := by
    ext i j
    simp only [of_apply]
    rw [← Real.exp_sum, Finset.mul_sum]
    congr 1
    exact Finset.sum_congr rfl fun k _ => by ring
  rw [e]; exact h

/-- **`SpectralMixtureKernel`**: `Σ_q w_q Π_k exp(−2π² v_qk τ_k²) cos(2π μ_qk τ_k)`, `τ = x_i − x_j`,
weights `w_q ≥ 0`, scales `v_qk ≥ 0`. -/
theorem gram_spectral_mixture_psd {d q : Type*} [Fintype d] [Fintype q] (X : Matrix ι d ℝ)
    (w : q → ℝ) (v μ : q → d → ℝ) (hw : ∀ a, 0 ≤ w a) (hv : ∀ a k, 0 ≤ v a k) :
    (∑ a, w a • (of fun i j => ∏ k, (Real.exp (-2 * Real.pi ^ 2 * v a k * (X i k - X j k) ^ 2) *
        Real.cos (2 * Real.pi * μ a k * (X i k - X j k))) : Matrix ι ι ℝ)).PosSemidef := by
  refine posSemidef_sum _ fun a _ => PosSemidef.smul ?_ (hw a)
  exact hprod_psd Finset.univ
    (fun k => (of fun i j => Real.exp (-2 * Real.pi ^ 2 * v a k * (X i k - X j k) ^ 2) *
        Real.cos (2 * Real.pi * μ a k * (X i k - X j k)) : Matrix ι ι ℝ))
    (fun k _ => spectral_mixture_factor_gram_psd (fun i => X i k) (hv a k) (μ a k))

/-- **scale mixtures**: if `exp(−s·D)` (entrywise) is PSD for every `s ≥ 0`, then `(1 + D)^{−α}` is PSD, `α > 0`
(`Γ(α)(1+u)^{−α} = ∫₀^∞ t^{α−1} e^{−(1+u)t} dt`; the quadratic form is an integral of non-negative quadratic forms). -/
theorem gram_scale_mixture_psd {D : Matrix ι ι ℝ} (hD0 : ∀ i j, 0 ≤ D i j) (hsym : ∀ i j, D i j = D j i)
    (hD : ∀ s : ℝ, 0 ≤ s → (of fun i j => Real.exp (-s * D i j) : Matrix ι ι ℝ).PosSemidef)
    {α : ℝ} (hα : 0 < α) :
    (of fun i j => (1 + D i j) ^ (-α) : Matrix ι ι ℝ).PosSemidef := rq_gram_psd_of_dist hD0 hsym hD hα

/-- **`RQKernel`**: `(1 + ‖x_i − x_j‖² / (2 α ℓ²))^{−α}`, `α > 0`, every n, every input dimension, every lengthscale,
duplicates included (a Gamma scale mixture of RBF kernels). -/
theorem gram_rq_psd {d : Type*} [Fintype d] (X : Matrix ι d ℝ) (ℓ : ℝ) {α : ℝ} (hα : 0 < α) :
    (of fun i j => (1 + (∑ k, (X i k - X j k) ^ 2) / (2 * α * ℓ ^ 2)) ^ (-α) : Matrix ι ι ℝ).PosSemidef :=
  rq_gram_psd X ℓ hα

/-- RBF with ARD lengthscales `ℓ_k`. -/
theorem gram_rbf_ard_psd {d : Type*} [Fintype d] (X : Matrix ι d ℝ) (ℓ : d → ℝ) :
    (of fun i j => Real.exp (-(∑ k, ((X i k - X j k) / ℓ k) ^ 2) / 2) : Matrix ι ι ℝ).PosSemidef := by
  have h := rbf_gram_psd (of fun i k => X i k / ℓ k : Matrix ι d ℝ) 1
  have e : (of fun i j => Real.exp (-(∑ k, ((X i k - X j k) / ℓ k) ^ 2) / 2) : Matrix ι ι ℝ) =
      of fun i j => Real.exp (-(∑ k, ((of fun i k => X i k / ℓ k : Matrix ι d ℝ) i k -
        (of fun i k => X i k / ℓ k : Matrix ι d ℝ) j k) ^ 2) / (2 * (1 : ℝ) ^ 2)) := by
    ext i j
    simp only [of_apply, one_pow, mul_one, sub_div]
  rw [e]; exact h

/-- RQ with ARD lengthscales `ℓ_k`. -/
theorem gram_rq_ard_psd {d : Type*} [Fintype d] (X : Matrix ι d ℝ) (ℓ : d → ℝ) {α : ℝ} (hα : 0 < α) :
    (of fun i j => (1 + (∑ k, ((X i k - X j k) / ℓ k) ^ 2) / (2 * α)) ^ (-α) : Matrix ι ι ℝ).PosSemidef := by
  have h := rq_gram_psd (of fun i k => X i k / ℓ k : Matrix ι d ℝ) 1 hα
  have e : (of fun i j => (1 + (∑ k, ((X i k - X j k) / ℓ k) ^ 2) / (2 * α)) ^ (-α) : Matrix ι ι ℝ) =
      of fun i j => (1 + (∑ k, ((of fun i k => X i k / ℓ k : Matrix ι d ℝ) i k -
        (of fun i k => X i k / ℓ k : Matrix ι d ℝ) j k) ^ 2) / (2 * α * (1 : ℝ) ^ 2)) ^ (-α) := by
    ext i j
    simp only [of_apply, one_pow, mul_one, sub_div]
  rw [e]; exact h

/-- `exp(min(u_i, u_j))` (`e^{min(u,w)} = ∫ 1[t≤u] 1[t≤w] e^t dt`). -/
theorem gram_exp_min_psd (u : ι → ℝ) :
    (of fun i j => Real.exp (min (u i) (u j)) : Matrix ι ι ℝ).PosSemidef := exp_min_gram_psd u

/-- **`MaternKernel(nu=0.5)` in input dimension one**: `exp(−|x_i − x_j| / ℓ)`, `ℓ > 0`, every finite set of points
(unsorted, duplicates allowed): `e^{−|a−b|} = e^{−a} e^{−b} e^{2 min(a,b)}`. -/
theorem gram_matern12_1d_psd (x : ι → ℝ) {ℓ : ℝ} (hℓ : 0 < ℓ) :
    (of fun i j => Real.exp (-|x i - x j| / ℓ) : Matrix ι ι ℝ).PosSemidef := matern12_1d_gram_psd x hℓ

/-- **`CylindricalKernel`**: (radial Gram matrix) ⊙ `Σ_{p<P} w_p ⟨a_i, a_j⟩^p`, angular weights `w_p ≥ 0`, for any PSD
radial factor (RBF, RQ, Matérn-½ on the one-dimensional radii `kuma(r_i)` are PSD by the theorems above). -/
theorem gram_cylindrical_psd {d : Type*} [Fintype d] {R : Matrix ι ι ℝ} (hR : R.PosSemidef) (A : Matrix ι d ℝ)
    (P : ℕ) (w : ℕ → ℝ) (hw : ∀ p, 0 ≤ w p) :
    (R ⊙ ∑ p ∈ Finset.range P, w p • (of fun i j => (A * Aᵀ) i j ^ p : Matrix ι ι ℝ)).PosSemidef := by
  have hlin : (A * Aᵀ).PosSemidef := by simpa using gram_linear_psd A zero_le_one
  exact hR.hadamard (posSemidef_sum _ fun p _ => (hpow_psd hlin p).smul (hw p))

/-! ### Wave 3: autocorrelation kernels (Matérn-3/2, Matérn-5/2, triangle kernel in dimension one), Hamming-IMQ -/

/-- **Gram matrix of `L²` functions**: `∫ φ_i φ_j dμ` is PSD for finitely many functions on any measure space
(`vᵀ G v = ∫ (Σ vᵢ φᵢ)² dμ ≥ 0`). -/
theorem gram_l2_psd {Ω : Type*} [MeasurableSpace Ω] (μ : MeasureTheory.Measure Ω) (φ : ι → Ω → ℝ)
    (hint : ∀ i j, MeasureTheory.Integrable (fun t => φ i t * φ j t) μ) :
    (of fun i j => ∫ t, φ i t * φ j t ∂μ : Matrix ι ι ℝ).PosSemidef := integral_gram_psd μ φ hint

/-- **autocorrelation lemma**: for `g : ℝ → ℝ` with the integrals finite, `k(a, b) = ∫ g(t − a) g(t − b) dt` has a PSD Gram
matrix on every finite point set (`Σ cᵢcⱼ k(xᵢ,xⱼ) = ∫ (Σ cᵢ g(t − xᵢ))² dt`). -/
theorem gram_autocorrelation_psd (g : ℝ → ℝ) (x : ι → ℝ)
    (hint : ∀ i j, MeasureTheory.Integrable (fun t => g (t - x i) * g (t - x j)) MeasureTheory.volume) :
    (of fun i j => ∫ t, g (t - x i) * g (t - x j) : Matrix ι ι ℝ).PosSemidef := autocorr_gram_psd g x hint

/-- `∫ e^{−|t−a|} e^{−|t−b|} dt = (1 + |a − b|) e^{−|a − b|}` (split at `a` and `b`; three exponential integrals). -/
theorem matern32_is_autocorrelation (a b : ℝ) :
    MeasureTheory.Integrable (fun t => Real.exp (-|t - a|) * Real.exp (-|t - b|)) MeasureTheory.volume ∧
    ∫ t, Real.exp (-|t - a|) * Real.exp (-|t - b|) = (1 + |a - b|) * Real.exp (-|a - b|) := integral_exp_abs_mul a b

/-- **`MaternKernel(nu=1.5)` in input dimension one**: `(1 + √3 r) e^{−√3 r}`, `r = |x_i − x_j| / ℓ`, every `ℓ > 0`, every finite
set of points (unsorted, duplicates allowed). -/
theorem gram_matern32_1d_psd (x : ι → ℝ) {ℓ : ℝ} (hℓ : 0 < ℓ) :
    (of fun i j => (1 + Real.sqrt 3 * (|x i - x j| / ℓ)) * Real.exp (-(Real.sqrt 3 * (|x i - x j| / ℓ))) :
      Matrix ι ι ℝ).PosSemidef := matern32_1d_gram_psd x hℓ

/-- `∫ g(t−a) g(t−b) dt = ¾ (1 + |a−b| + |a−b|²/3) e^{−|a−b|}` for the causal profile `g(s) = s² e^{−s} 1[s > 0]`
(`∫₀^∞ u^k e^{−2u} du = k!/2^{k+1}`). -/
theorem matern52_is_autocorrelation (a b : ℝ) :
    MeasureTheory.Integrable (fun t => causal2 (t - a) * causal2 (t - b)) MeasureTheory.volume ∧
    ∫ t, causal2 (t - a) * causal2 (t - b) = 3 / 4 * (1 + |a - b| + |a - b| ^ 2 / 3) * Real.exp (-|a - b|) :=
  causal2_autocorr a b

/-- **`MaternKernel(nu=2.5)` in input dimension one**: `(1 + √5 r + 5r²/3) e^{−√5 r}`, `r = |x_i − x_j| / ℓ`. -/
theorem gram_matern52_1d_psd (x : ι → ℝ) {ℓ : ℝ} (hℓ : 0 < ℓ) :
    (of fun i j => (1 + Real.sqrt 5 * (|x i - x j| / ℓ) + 5 / 3 * (|x i - x j| / ℓ) ^ 2) *
      Real.exp (-(Real.sqrt 5 * (|x i - x j| / ℓ))) : Matrix ι ι ℝ).PosSemidef := matern52_1d_gram_psd x hℓ

/-- **`PiecewisePolynomialKernel(q=0)` in input dimension one** (`j = ⌊1/2⌋ + 0 + 1 = 1`): `max(0, 1 − |x_i − x_j|/ℓ)`. -/
theorem gram_piecewise_q0_1d_psd (x : ι → ℝ) {ℓ : ℝ} (hℓ : 0 < ℓ) :
    (of fun i j => max 0 (1 - |x i - x j| / ℓ) : Matrix ι ι ℝ).PosSemidef := piecewise0_1d_gram_psd x hℓ

/-- `exp(−c · d_Hamming)` is PSD (`c ≥ 0`): the product over the sequence positions of `e^{−c} J + (1 − e^{−c}) [s_i(t) = s_j(t)]`. -/
theorem gram_exp_neg_hamming_psd {T V : Type*} [Fintype T] [DecidableEq V] (seq : ι → T → V) {c : ℝ} (hc : 0 ≤ c) :
    (of fun i j => Real.exp (-c * ((Finset.univ.filter fun t => seq i t ≠ seq j t).card : ℝ)) : Matrix ι ι ℝ).PosSemidef :=
  exp_neg_hamming_psd seq hc

/-- **`HammingIMQKernel`** on (one-hot encodings of) sequences of any length over any vocabulary:
`((1 + α) / (α + d_Hamming(s_i, s_j)))^β`, `α, β > 0` (through `gram_scale_mixture_psd`). -/
theorem gram_hamming_imq_psd {T V : Type*} [Fintype T] [DecidableEq V] (seq : ι → T → V) {α β : ℝ} (hα : 0 < α) (hβ : 0 < β) :
    (of fun i j => ((1 + α) / (α + ((Finset.univ.filter fun t => seq i t ≠ seq j t).card : ℝ))) ^ β :
      Matrix ι ι ℝ).PosSemidef := hamming_imq_gram_psd seq hα hβ

/-! ### Wave 3: derivative kernels of kernels with a finite feature map (index `(i, none)` = value at `x_i`,
`(i, some a)` = `∂/∂x_a` at `x_i`; gpytorch's interleaved layout is a reindexing, cf. `gram_kronecker_psd`'s `e`) -/

/-- **Leibniz (jet) product**: if `A`, `B` are PSD value / gradient block matrices of two kernels, the block matrix of the
PRODUCT kernel (`jetProd A B`: Leibniz rule in each argument) is PSD. -/
theorem gram_jet_product_psd {d : Type*} [Fintype d] [DecidableEq d]
    {A B : Matrix (ι × Option d) (ι × Option d) ℝ} (hA : A.PosSemidef) (hB : B.PosSemidef) :
    (of fun u v => A u v * B (u.1, none) (v.1, none) +
      (if v.2 = none then 0 else 1) * (A u (v.1, none) * B (u.1, none) v) +
      (if u.2 = none then 0 else 1) * (A (u.1, none) v * B u (v.1, none)) +
      (if u.2 = none then 0 else 1) * (if v.2 = none then 0 else 1) * (A (u.1, none) (v.1, none) * B u v) :
      Matrix (ι × Option d) (ι × Option d) ℝ).PosSemidef := jetProd_psd hA hB

/-- **derivative blocks of the (offset) linear kernel** `s(x, y) = ⟨x, y⟩ + c`, `c ≥ 0`:
`[s, ∂s/∂y_b = x_i b; ∂s/∂x_a = x_j a, δ_ab]` is the Gram matrix of the stacked features `(x_i, √c)`, `(e_a, 0)`. -/
theorem gram_linear_grad_psd {d : Type*} [Fintype d] [DecidableEq d] (X : Matrix ι d ℝ) {c : ℝ} (hc : 0 ≤ c) :
    (of fun u v => match u.2, v.2 with
      | none, none => (X * Xᵀ) u.1 v.1 + c
      | none, some b => X u.1 b
      | some a, none => X v.1 a
      | some a, some b => if a = b then 1 else 0 : Matrix (ι × Option d) (ι × Option d) ℝ).PosSemidef :=
  linGrad_psd X hc

/-- **`PolynomialKernelGrad`**: the value / gradient block matrix of `(⟨x, y⟩ + c)^p` that `PolynomialKernelGrad.forward`
assembles (`K11 = s^p`, `K12 = p s^{p−1} x_i b`, `K21 = p s^{p−1} x_j a`, `K22 = p(p−1) s^{p−2} x_j a x_i b + p s^{p−1} δ_ab`) is PSD
for every finite point set, every input dimension, every power `p` and offset `c ≥ 0`
(`blocks(s^{p+1}) = jetProd (blocks(s^p)) (blocks(s))`, induction on `p`). -/
theorem gram_polynomial_grad_psd {d : Type*} [Fintype d] [DecidableEq d] (X : Matrix ι d ℝ) {c : ℝ} (hc : 0 ≤ c) (p : ℕ) :
    (of fun u v => match u.2, v.2 with
      | none, none => ((X * Xᵀ) u.1 v.1 + c) ^ p
      | none, some b => p * ((X * Xᵀ) u.1 v.1 + c) ^ (p - 1) * X u.1 b
      | some a, none => p * ((X * Xᵀ) u.1 v.1 + c) ^ (p - 1) * X v.1 a
      | some a, some b => p * (p - 1) * ((X * Xᵀ) u.1 v.1 + c) ^ (p - 2) * X v.1 a * X u.1 b +
          (if a = b then p * ((X * Xᵀ) u.1 v.1 + c) ^ (p - 1) else 0) :
      Matrix (ι × Option d) (ι × Option d) ℝ).PosSemidef := polyGrad_psd X hc p

/-- value / gradient blocks of `exp⟨x, y⟩` — `[e^s, e^s x_i b; e^s x_j a, e^s (x_j a x_i b + δ_ab)]` — are PSD: the jet version of
`gram_exp_psd` (limit of `∑_{k<N} blocks(⟨x,y⟩^k)/k!`, exponential series shifted by 0, 1 and 2). -/
theorem gram_exp_grad_psd {d : Type*} [Fintype d] [DecidableEq d] (Z : Matrix ι d ℝ) :
    (of fun u v => match u.2, v.2 with
      | none, none => Real.exp ((Z * Zᵀ) u.1 v.1)
      | none, some b => Real.exp ((Z * Zᵀ) u.1 v.1) * Z u.1 b
      | some a, none => Real.exp ((Z * Zᵀ) u.1 v.1) * Z v.1 a
      | some a, some b => Real.exp ((Z * Zᵀ) u.1 v.1) * (Z v.1 a * Z u.1 b + (if a = b then 1 else 0)) :
      Matrix (ι × Option d) (ι × Option d) ℝ).PosSemidef := expGrad_psd Z

/-- **`RBFKernelGrad`** (shared or ARD lengthscales `ℓ_k ≠ 0`): the value / gradient block matrix that
`RBFKernelGrad.forward` assembles — with `k = exp(−½ Σ_k ((x_i−x_j)_k/ℓ_k)²)` and `o_a = (x_i − x_j)_a/ℓ_a²`:
`K11 = k`, `K12 = k·o_b`, `K21 = −k·o_a`, `K22 = k·(δ_ab/ℓ_a² − o_a o_b)` — is PSD for every finite point set (duplicates allowed)
and every input dimension. -/
theorem gram_rbf_grad_psd {d : Type*} [Fintype d] [DecidableEq d] (X : Matrix ι d ℝ) (ℓ : d → ℝ) (hℓ : ∀ k, ℓ k ≠ 0) :
    (of fun u v => match u.2, v.2 with
      | none, none => Real.exp (-(∑ k, ((X u.1 k - X v.1 k) / ℓ k) ^ 2) / 2)
      | none, some b => Real.exp (-(∑ k, ((X u.1 k - X v.1 k) / ℓ k) ^ 2) / 2) * ((X u.1 b - X v.1 b) / ℓ b ^ 2)
      | some a, none => -(Real.exp (-(∑ k, ((X u.1 k - X v.1 k) / ℓ k) ^ 2) / 2) * ((X u.1 a - X v.1 a) / ℓ a ^ 2))
      | some a, some b => Real.exp (-(∑ k, ((X u.1 k - X v.1 k) / ℓ k) ^ 2) / 2) *
          ((if a = b then 1 / ℓ a ^ 2 else 0) - (X u.1 a - X v.1 a) / ℓ a ^ 2 * ((X u.1 b - X v.1 b) / ℓ b ^ 2)) :
      Matrix (ι × Option d) (ι × Option d) ℝ).PosSemidef := rbfGrad_psd X ℓ hℓ

/-- entrywise product of finitely many PSD matrices (`ProductStructureKernel`, products of several factors). -/
theorem gram_finite_product_psd {q : Type*} (s : Finset q) (Kf : q → Matrix ι ι ℝ) (h : ∀ a ∈ s, (Kf a).PosSemidef) :
    (of fun i j => ∏ a ∈ s, Kf a i j : Matrix ι ι ℝ).PosSemidef := hprod_psd s Kf h

end gram

/-! ## 3. Variance floor and noise floor (about the regenerated expressions) -/

section floors
variable {α : Type} [LinearOrder α] {n : Nat}

/-- the regenerated clamp of `MultivariateNormal.variance` *is* `max (diag) min_variance`. -/
theorem variance_eq_spec (diag : Fin n → α) (b : α) :
    Gen.C07.varianceClamp.run diag b = variance diag b := by
  funext i
  show (if anyLt diag (fun _ => b) = true then (fun j => max (diag j) b) else diag) i = max (diag i) b
  rw [ite_apply]
  split
  · rfl
  · rename_i hc
    have h := (anyLt_eq_false_iff _ _).mp (Bool.eq_false_iff.mpr hc)
    exact (max_eq_left (h i)).symm

/-- **`dist.variance ≥ settings.min_variance`**, for every covariance diagonal (negative, zero, NaN-free). -/
theorem variance_ge_min (diag : Fin n → α) (b : α) (i : Fin n) :
    b ≤ Gen.C07.varianceClamp.run diag b i := by
  rw [variance_eq_spec]; exact le_max_right _ _

/-- the clamp never lowers a variance. -/
theorem variance_ge_diag (diag : Fin n → α) (b : α) (i : Fin n) :
    diag i ≤ Gen.C07.varianceClamp.run diag b i := by
  rw [variance_eq_spec]; exact le_max_left _ _

/-- **`FixedGaussianNoise` stores noise `≥ settings.min_fixed_noise`**. -/
theorem fixed_noise_ge_min (noise : Fin n → α) (b : α) (i : Fin n) :
    b ≤ Gen.C07.fixedNoiseClamp.run noise b i := by
  have : Gen.C07.fixedNoiseClamp.run noise b = variance noise b := by
    funext i
    show (if anyLt noise (fun _ => b) = true then (fun j => max (noise j) b) else noise) i = max (noise i) b
    rw [ite_apply]
    split
    · rfl
    · rename_i hc
      have h := (anyLt_eq_false_iff _ _).mp (Bool.eq_false_iff.mpr hc)
      exact (max_eq_left (h i)).symm
  rw [this]; exact le_max_right _ _

/-- the configured floors are positive (so reported variances are `> 0`, standard deviations real and `> 0`). -/
theorem min_variance_defaults_pos :
    0 < Gen.C07.minVarianceFloat ∧ 0 < Gen.C07.minVarianceDouble ∧ 0 < Gen.C07.minVarianceHalf ∧
    0 < Gen.C07.minFixedNoiseFloat ∧ 0 < Gen.C07.minFixedNoiseDouble ∧ 0 < Gen.C07.minFixedNoiseHalf := by
  refine ⟨?_, ?_, ?_, ?_, ?_, ?_⟩ <;> decide +kernel

/-- **stddev is real**: the reported variance is positive whenever the floor is, so `sqrt` is taken of a
positive real and is itself positive. -/
theorem stddev_pos (diag : Fin n → ℝ) {b : ℝ} (hb : 0 < b) (i : Fin n) :
    0 < Real.sqrt (Gen.C07.varianceClamp.run diag b i) :=
  Real.sqrt_pos.mpr (lt_of_lt_of_le hb (variance_ge_min diag b i))

end floors

section noise

/-- the regenerated `GreaterThan.transform` *is* `transform raw + lower`. -/
theorem noise_eq_spec {α : Type} [Add α] [Sub α] [Mul α] [Neg α] (tr : α → α) (raw lower : α) :
    Gen.C07.greaterThanTransform.eval tr raw lower = noise tr raw lower := rfl

/-- **noise > constraint lower bound** for every raw value, for any positive transform. -/
theorem noise_ge_lower {α : Type} [Field α] [LinearOrder α] [IsStrictOrderedRing α] (tr : α → α)
    (htr : ∀ x, 0 < tr x) (raw lower : α) :
    lower < Gen.C07.greaterThanTransform.eval tr raw lower := by
  rw [noise_eq_spec]; unfold noise
  exact lt_add_of_pos_left _ (htr raw)

/-- `torch.nn.Softplus()` is positive over `ℝ` (threshold `≥ 0`; torch uses 20). -/
theorem softplus_pos {thr : ℝ} (hthr : 0 ≤ thr) (x : ℝ) : 0 < softplusT Real.exp Real.log thr x := by
  unfold softplusT
  split
  · rename_i h; exact lt_of_le_of_lt hthr h
  · exact log_one_add_exp_pos x

/-- **`likelihood.noise > lower bound`** with the code's transform, every raw value. -/
theorem noise_gt_lower_softplus (raw lower : ℝ) :
    lower < Gen.C07.greaterThanTransform.eval (softplusT Real.exp Real.log 20) raw lower :=
  noise_ge_lower _ (softplus_pos (by norm_num)) raw lower

/-- the default bounds `GreaterThan(1e-4)` are positive: default noise variances are strictly positive. -/
theorem default_noise_lower_pos :
    0 < Gen.C07.homoskedasticNoiseLower ∧ 0 < Gen.C07.heteroskedasticNoiseLower ∧
    0 < Gen.C07.multitaskNoiseLower := by
  refine ⟨?_, ?_, ?_⟩ <;> decide +kernel

end noise

/-! ## 4. The driver's exact certificate is sound -/

section cert
variable {n : Nat}

/-- quadratic-form soundness over any linearly ordered field: a certificate means `vᵀ M v ≥ 0` for all `v`
and `M` symmetric. -/
theorem ldl_cert_quad_nonneg {K : Type} [Field K] [LinearOrder K] [IsStrictOrderedRing K]
    {M L : DMat n n K} {d : Fin n → K} (h : psdCert? M = some (L, d)) :
    M.toMatrixᵀ = M.toMatrix ∧ ∀ v, 0 ≤ quadForm M v := by
  have hM := psdCert?_eq h
  refine ⟨by rw [hM]; exact ldl_symm _ _, fun v => ?_⟩
  unfold quadForm; rw [hM]
  exact ldl_quad_nonneg _ _ (psdCert?_spec h).2 v

/-- **the certificate implies `PosSemidef`** for the executed instance `ℚ`. -/
theorem ldl_cert_psd {M L : DMat n n ℚ} {d : Fin n → ℚ} (h : psdCert? M = some (L, d)) :
    M.toMatrix.PosSemidef := by
  obtain ⟨hs, hq⟩ := ldl_cert_quad_nonneg h
  refine PosSemidef.of_dotProduct_mulVec_nonneg ?_ fun x => ?_
  · rw [IsHermitian, conjTranspose_eq_transpose_of_trivial]; exact hs
  · simpa [quadForm] using hq x

/-- … and for the same matrix read over `ℝ` (every float64 matrix is such a cast). -/
theorem ldl_cert_psd_real {M L : DMat n n ℚ} {d : Fin n → ℚ} (h : psdCert? M = some (L, d)) :
    (M.toMatrix.map ((↑) : ℚ → ℝ)).PosSemidef := by
  have hM := psdCert?_eq h
  have hd := (psdCert?_spec h).2
  have hmap : M.toMatrix.map ((↑) : ℚ → ℝ) =
      L.toMatrix.map ((↑) : ℚ → ℝ) * diagonal (fun i => ((d i : ℚ) : ℝ)) * (L.toMatrix.map ((↑) : ℚ → ℝ))ᵀ := by
    rw [hM]
    have := (Rat.castHom ℝ).mapMatrix.map_mul (L.toMatrix * diagonal d) L.toMatrixᵀ
    simp only [RingHom.mapMatrix_apply, Rat.coe_castHom] at this
    rw [this]
    have h2 := (Rat.castHom ℝ).mapMatrix.map_mul L.toMatrix (diagonal d)
    simp only [RingHom.mapMatrix_apply, Rat.coe_castHom] at h2
    rw [h2, transpose_map]
    congr 2
    ext i j
    by_cases hij : i = j <;> simp [diagonal, hij]
  refine PosSemidef.of_dotProduct_mulVec_nonneg ?_ fun x => ?_
  · rw [IsHermitian, conjTranspose_eq_transpose_of_trivial, hmap]; exact ldl_symm _ _
  · rw [hmap, star_trivial]
    exact ldl_quad_nonneg _ _ (fun i => by exact_mod_cast hd i) x

/-- certificate for `M + δ I` (the tolerance shift): `vᵀ M v ≥ −δ ‖v‖²` for every `v`, i.e. every
eigenvalue of `M` is `≥ −δ`. -/
theorem ldl_cert_shift {K : Type} [Field K] [LinearOrder K] [IsStrictOrderedRing K]
    {M L : DMat n n K} {δ : K} {d : Fin n → K} (h : psdCert? (shift M δ) = some (L, d)) (v : Fin n → K) :
    -δ * (v ⬝ᵥ v) ≤ quadForm M v := by
  have := (ldl_cert_quad_nonneg h).2 v
  unfold quadForm at this ⊢
  rw [shift_toMatrix, add_mulVec, dotProduct_add, smul_mulVec, one_mulVec, dotProduct_smul, smul_eq_mul] at this
  linarith

/-- **a reported witness refutes PSD**: `negWitness? M = some v` gives `vᵀ M v < 0`, so `M` is not PSD. -/
theorem neg_witness_not_psd {M : DMat n n ℚ} {v : Fin n → ℚ} (h : negWitness? M = some v) :
    ¬ M.toMatrix.PosSemidef := by
  intro hp
  have h1 := negWitness?_spec h
  have h2 := hp.dotProduct_mulVec_nonneg v
  rw [star_trivial] at h2
  exact absurd h1 (not_lt.mpr h2)

/-- any vector with `vᵀ M v < 0` (e.g. a rationalised float eigenvector, checked by the driver's `quad`) refutes PSD. -/
theorem quad_neg_not_psd {M : DMat n n ℚ} {v : Fin n → ℚ} (h : quadForm M v < 0) :
    ¬ M.toMatrix.PosSemidef := by
  intro hp
  have h2 := hp.dotProduct_mulVec_nonneg v
  rw [star_trivial] at h2
  exact absurd h (not_lt.mpr h2)

/-- certificate and witness exclude each other (the driver can never answer both). -/
theorem cert_witness_exclusive {M L : DMat n n ℚ} {d : Fin n → ℚ} {v : Fin n → ℚ}
    (hc : psdCert? M = some (L, d)) (hw : negWitness? M = some v) : False :=
  neg_witness_not_psd hw (ldl_cert_psd hc)

end cert

/-! ## 5. Model-level corollaries (the functions the driver runs) -/

section model
variable {K : Type} [Field K] [LinearOrder K] [IsStrictOrderedRing K] [StarRing K] [TrivialStar K]
  [StarOrderedRing K] {n m k : Nat}

/-- `posteriorCov?` returns a PSD matrix whenever the joint prior is PSD and the training block PD. -/
theorem posteriorCov_psd {A : DMat n n K} {B : DMat n m K} {D P : DMat m m K}
    (h : posteriorCov? A B D = some P)
    (hJ : (fromBlocks A.toMatrix B.toMatrix B.toMatrixᵀ D.toMatrix).PosSemidef) (hA : A.toMatrix.PosDef) :
    P.toMatrix.PosSemidef := by
  rw [posteriorCov?_toMatrix h]
  have := posterior_psd A.toMatrix B.toMatrix D.toMatrix
    (by rwa [conjTranspose_eq_transpose_of_trivial]) hA
  rwa [conjTranspose_eq_transpose_of_trivial] at this

/-- `reduction?` (prior − posterior) is PSD. -/
theorem reduction_psd {A : DMat n n K} {B : DMat n m K} {P : DMat m m K}
    (h : reduction? A B = some P) (hA : A.toMatrix.PosDef) : P.toMatrix.PosSemidef := by
  rw [reduction?_toMatrix h]
  have := prior_sub_posterior_psd A.toMatrix B.toMatrix hA
  rwa [conjTranspose_eq_transpose_of_trivial] at this

/-- `marginalCov`. -/
theorem marginalCov_psd {C R : DMat m m K} (hC : C.toMatrix.PosSemidef) (hR : R.toMatrix.PosSemidef) :
    (marginalCov C R).toMatrix.PosSemidef := by
  rw [marginalCov_toMatrix]; exact hC.add hR

/-- `variationalCov`. -/
theorem variationalCov_psd (Kss : DMat m m K) (B : DMat k m K) (S : DMat k k K)
    (hS : S.toMatrix.PosSemidef) (hP : (Kss.toMatrix - B.toMatrixᵀ * B.toMatrix).PosSemidef) :
    (variationalCov Kss B S).toMatrix.PosSemidef := by
  rw [variationalCov_toMatrix]
  have := variational_cov_psd Kss.toMatrix B.toMatrix S.toMatrix hS
    (by rwa [conjTranspose_eq_transpose_of_trivial])
  rwa [conjTranspose_eq_transpose_of_trivial] at this

end model

/-! ## 6. What is *not* proved

Full strength (NOT proved — Bochner / Schoenberg):

  theorem gram_psd (k ∈ {Matérn ν ∈ {½, 3/2, 5/2} in input dimension d > 1, piecewise polynomial (q ≥ 1; q = 0 in d > 1),
      RBFKernelGradGrad, Matern52KernelGrad})
      (x : Fin n → domain k) : (of fun i j => k (x i) (x j)).PosSemidef

(RBF, RQ, cosine d = 1, periodic and spectral mixture, listed as unprovable in DESIGN.md, ARE proved above:
`gram_rbf_psd`, `gram_rq_psd`, `gram_cosine_psd`, `gram_periodic_psd`, `gram_spectral_mixture_psd`; in dimension one
Matérn-½ / 3/2 / 5/2: `gram_matern12_1d_psd`, `gram_matern32_1d_psd`, `gram_matern52_1d_psd`, the triangle kernel
`gram_piecewise_q0_1d_psd`; Hamming-IMQ: `gram_hamming_imq_psd`; PolynomialKernelGrad: `gram_polynomial_grad_psd`; RBFKernelGrad:
`gram_rbf_grad_psd`.)

Proved weakening: the order-2 necessary conditions for a stationary kernel `k(x,y) = f(dist x y)` with
`|f r| ≤ f 0` (which Matérn and piecewise polynomial satisfy): the Gram matrix is symmetric, has
constant non-negative diagonal `f 0`, and every 2×2 principal submatrix is PSD.
The harness observes the full statement numerically and certifies it exactly per instance (`psdCert?`). -/

section partial_
variable {X : Type*}

theorem gram_psd_partial (f : ℝ → ℝ) (dist : X → X → ℝ) (hsymm : ∀ x y, dist x y = dist y x)
    (hself : ∀ x, dist x x = 0) (hf : ∀ r, |f r| ≤ f 0) {ι : Type*} (x : ι → X) :
    let G : Matrix ι ι ℝ := of fun i j => f (dist (x i) (x j))
    Gᵀ = G ∧ (∀ i, G i i = f 0 ∧ 0 ≤ G i i) ∧
      ∀ i j, (G.submatrix ![i, j] ![i, j]).PosSemidef := by
  intro G
  have h0 : 0 ≤ f 0 := le_trans (abs_nonneg _) (hf 0)
  have hGs : Gᵀ = G := by ext i j; simp [G, hsymm]
  refine ⟨hGs, fun i => ⟨by simp [G, hself], by simp [G, hself, h0]⟩, fun i j => ?_⟩
  refine PosSemidef.of_dotProduct_mulVec_nonneg ?_ fun v => ?_
  · rw [IsHermitian, conjTranspose_eq_transpose_of_trivial, transpose_submatrix, hGs]
  · have hii : G i i = f 0 := by simp [G, hself]
    have hjj : G j j = f 0 := by simp [G, hself]
    have hji : G j i = G i j := by simp [G, hsymm]
    have hb : |G i j| ≤ f 0 := by simpa [G] using hf (dist (x i) (x j))
    simp only [star_trivial, dotProduct, mulVec, Fin.sum_univ_two, submatrix_apply, Matrix.cons_val_zero,
      Matrix.cons_val_one, hii, hjj, hji]
    have h1 := abs_le.mp hb
    nlinarith [sq_nonneg (v 0 + v 1), sq_nonneg (v 0 - v 1), h1.1, h1.2]

/-- the RBF profile satisfies the hypothesis of `gram_psd_partial`. -/
theorem rbf_profile_bounded (r : ℝ) : |Real.exp (-(r ^ 2) / 2)| ≤ Real.exp (-(0 ^ 2) / 2) := by
  rw [abs_of_pos (Real.exp_pos _)]
  apply Real.exp_le_exp.mpr
  have : 0 ≤ r ^ 2 := sq_nonneg r
  norm_num
  linarith

end partial_

/-! ## Non-vacuity: concrete instances of the hypotheses -/

section examples

/-- a PD training block and a PSD joint: `A = 1`, `B = ½·1`, `D = 1` (2 training, 2 test points). -/
example : ((1 : Matrix (Fin 2) (Fin 2) ℝ)).PosDef ∧
    (fromBlocks (1 : Matrix (Fin 2) (Fin 2) ℝ) ((1 / 2 : ℝ) • (1 : Matrix (Fin 2) (Fin 2) ℝ))
      ((1 / 2 : ℝ) • (1 : Matrix (Fin 2) (Fin 2) ℝ))ᴴ 1).PosSemidef := by
  refine ⟨PosDef.one, ?_⟩
  letI : Invertible (1 : Matrix (Fin 2) (Fin 2) ℝ) := invertibleOne
  rw [PosDef.fromBlocks₁₁ _ _ PosDef.one]
  have : (1 : Matrix (Fin 2) (Fin 2) ℝ) - ((1 / 2 : ℝ) • (1 : Matrix (Fin 2) (Fin 2) ℝ))ᴴ * 1⁻¹ * ((1 / 2 : ℝ) • 1)
      = (3 / 4 : ℝ) • 1 := by
    ext i j
    by_cases hij : i = j <;> simp [hij]; norm_num
  rw [this]
  exact PosSemidef.one.smul (by norm_num)

/-- the same hypotheses at the executed scalar type `ℚ` (instances exist). -/
example : ((1 : Matrix (Fin 2) (Fin 2) ℚ)).PosDef := PosDef.one

/-- `more_data_less_variance` with a genuine sub-selection: rows `{0}` of a 2-row training set. -/
example : Function.Injective (![0] : Fin 1 → Fin 2) := by
  intro a b _; exact Subsingleton.elim a b

/-- the certificate accepts a singular PSD matrix (duplicated rows) without any shift … -/
example : (psdCert? (DMat.ofMatrix !![(1 : ℚ), 1; 1, 1])).isSome = true := by decide +kernel

/-- … and the witness search refutes an indefinite one. -/
example : (negWitness? (DMat.ofMatrix !![(1 : ℚ), 2; 2, 1])).isSome = true := by decide +kernel

/-- a variance diagonal with a negative rounding residue is lifted to the floor. -/
example : Gen.C07.varianceClamp.run (![(-1 : ℚ) / 1000000000000, 0, 1]) Gen.C07.minVarianceDouble
    = ![Gen.C07.minVarianceDouble, Gen.C07.minVarianceDouble, 1] := by decide +kernel

/-- the integrability hypothesis of `gram_autocorrelation_psd` is satisfiable: `g(s) = e^{−|s|}` at any points. -/
example (x : Fin 3 → ℝ) : ∀ i j, MeasureTheory.Integrable
    (fun t => (fun s => Real.exp (-|s|)) (t - x i) * (fun s => Real.exp (-|s|)) (t - x j)) MeasureTheory.volume :=
  fun i j => (integral_exp_abs_mul (x i) (x j)).1

/-- … and for `gram_l2_psd`: the same functions as an `L²` family. -/
example (x : Fin 2 → ℝ) : ∀ i j, MeasureTheory.Integrable
    (fun t => (fun (i : Fin 2) (t : ℝ) => Real.exp (-|t - x i|)) i t * (fun (i : Fin 2) (t : ℝ) => Real.exp (-|t - x i|)) j t)
      MeasureTheory.volume :=
  fun i j => (integral_exp_abs_mul (x i) (x j)).1

/-- the hypotheses of `gram_jet_product_psd` are satisfiable: two PSD value / gradient block matrices (blocks of the linear and
of the exponential kernel at arbitrary points). -/
example (X : Matrix (Fin 2) (Fin 2) ℝ) :
    ∃ A B : Matrix (Fin 2 × Option (Fin 2)) (Fin 2 × Option (Fin 2)) ℝ, A.PosSemidef ∧ B.PosSemidef :=
  ⟨_, _, linGrad_psd X zero_le_one, expGrad_psd X⟩

/-- positivity hypotheses (`ℓ`, `α`, `β`, offset `c`) of the wave-3 Gram theorems at typical gpytorch values. -/
example : (0 : ℝ) < 7 / 10 ∧ (0 : ℝ) < 1 / 2 ∧ (0 : ℝ) < 2 ∧ (0 : ℝ) ≤ 1 := by norm_num

/-- the lengthscale hypothesis of `gram_rbf_grad_psd` is satisfiable. -/
example : ∀ k : Fin 2, (![(7 : ℝ) / 10, 19 / 10]) k ≠ 0 := by
  intro k; fin_cases k <;> norm_num

/-- softplus hypothesis of `noise_ge_lower` is satisfiable (`tr = softplusT Real.exp Real.log 20`). -/
example : ∀ x : ℝ, 0 < softplusT Real.exp Real.log 20 x := softplus_pos (by norm_num)

end examples

end C07

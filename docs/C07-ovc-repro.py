import sys, warnings, os
sys.path.insert(0, os.environ.get("VERIF_REPO", "/repo"))
import torch, gpytorch
warnings.simplefilter("ignore")
torch.set_default_dtype(torch.float64)

def run(seed, whitened=True, M=4, nf=3, ns=5, fpv=False, noise=0.05, verbose=True):
    torch.manual_seed(seed)
    Z = torch.rand(M, 1) * 2
    class GP(gpytorch.models.ApproximateGP):
        def __init__(self):
            vd = gpytorch.variational.CholeskyVariationalDistribution(M)
            cls = gpytorch.variational.VariationalStrategy if whitened else gpytorch.variational.UnwhitenedVariationalStrategy
            vs = cls(self, Z, vd, learn_inducing_locations=False)
            super().__init__(vs)
            self.mean_module = gpytorch.means.ZeroMean()
            self.covar_module = gpytorch.kernels.ScaleKernel(gpytorch.kernels.RBFKernel())
            self.likelihood = gpytorch.likelihoods.GaussianLikelihood()
        def forward(self, x):
            return gpytorch.distributions.MultivariateNormal(self.mean_module(x), self.covar_module(x))
    m = GP()
    m.likelihood.noise = noise
    m.covar_module.base_kernel.lengthscale = 0.7
    m.eval(); m.likelihood.eval()
    xs = torch.rand(ns, 1) * 2
    xf = torch.rand(nf, 1) * 2
    yf = torch.sin(3 * xf).squeeze(-1)
    with torch.no_grad():
        m(xs)
        vd = m.variational_strategy._variational_distribution
        Lq = 0.3 * torch.eye(M) + 0.1 * torch.randn(M, M).tril()
        Lq = Lq.tril(-1) + torch.diag(Lq.diagonal().abs() + 0.05)
        vd.chol_variational_covar.copy_(Lq)
        vd.variational_mean.copy_(torch.randn(M) * 0.5)
        m.train(); m.eval()
        q = m(xs)
        qvar = q.variance.clone()
        qcov = q.covariance_matrix.clone()
        with gpytorch.settings.fast_pred_var(fpv):
            fm = m.get_fantasy_model(xf, yf)
            p = fm(xs)
            fcov = p.covariance_matrix.clone(); fmean = p.mean.clone()
        # dense reference
        k = m.covar_module
        Kzz = k(Z).to_dense(); jit = m.variational_strategy.jitter_val
        S = Lq @ Lq.T; mv = vd.variational_mean.clone()
        if whitened:
            L = torch.linalg.cholesky(Kzz)     # pseudo_points uses Kmm.cholesky() without the jitter
            Su = L @ S @ L.T; mu = L @ mv
        else:
            Su, mu = S, mv
        Dhat = torch.linalg.inv(torch.linalg.inv(Su) - torch.linalg.inv(Kzz))
        yhat = Dhat @ torch.linalg.solve(Su, mu)
        XA = torch.cat([Z, xf]); yA = torch.cat([yhat, yf])
        KA = k(XA).to_dense(); KsA = k(xs, XA).to_dense(); Kss = k(xs).to_dense()
        N = torch.zeros(M + nf, M + nf); N[:M, :M] = Dhat; N[M:, M:] = noise * torch.eye(nf)
        ref_cov = Kss - KsA @ torch.linalg.solve(KA + N, KsA.T)
        ref_mean = KsA @ torch.linalg.solve(KA + N, yA)
        # sanity: OVC without new data reproduces q(f)
        KsZ = k(xs, Z).to_dense()
        q_ref = Kss - KsZ @ torch.linalg.solve(Kzz + Dhat, KsZ.T)
        # what if D-hat is replaced by the likelihood noise on the inducing block
        N2 = noise * torch.eye(M + nf)
        wrong_cov = Kss - KsA @ torch.linalg.solve(KA + N2, KsA.T)
    sc = Kss.diagonal().max().item()
    out = dict(qf_vs_ovc0=(q_ref - qcov).abs().max().item() / sc, cov_dev=(fcov - ref_cov).abs().max().item() / sc,
               mean_dev=(fmean - ref_mean).abs().max().item(), cov_vs_allnoise=(fcov - wrong_cov).abs().max().item() / sc,
               var_increase=(fcov.diagonal() - qvar).max().item() / sc, ref_var_increase=(ref_cov.diagonal() - qvar).max().item() / sc,
               min_eig=torch.linalg.eigvalsh((fcov + fcov.T) / 2).min().item(), asym=(fcov - fcov.T).abs().max().item(),
               Dhat_min_eig=torch.linalg.eigvalsh((Dhat + Dhat.T) / 2).min().item())
    if verbose:
        print(f"seed={seed} whitened={whitened} fpv={fpv}: " + ", ".join(f"{a}={b:.3e}" for a, b in out.items()))
    return out
for fpv in (False, True):
    for wh in (True, False):
        for seed in range(3):
            run(seed, wh, fpv=fpv)

print("---- mean / amortized model check")
def run2(seed, fpv):
    torch.manual_seed(seed)
    M, nf, ns, noise = 4, 3, 5, 0.05
    Z = torch.rand(M, 1) * 2
    class GP(gpytorch.models.ApproximateGP):
        def __init__(self):
            vd = gpytorch.variational.CholeskyVariationalDistribution(M)
            vs = gpytorch.variational.VariationalStrategy(self, Z, vd, learn_inducing_locations=False)
            super().__init__(vs)
            self.mean_module = gpytorch.means.ZeroMean()
            self.covar_module = gpytorch.kernels.ScaleKernel(gpytorch.kernels.RBFKernel())
            self.likelihood = gpytorch.likelihoods.GaussianLikelihood()
        def forward(self, x):
            return gpytorch.distributions.MultivariateNormal(self.mean_module(x), self.covar_module(x))
    m = GP(); m.likelihood.noise = noise; m.covar_module.base_kernel.lengthscale = 0.7
    m.eval(); m.likelihood.eval()
    xs = torch.rand(ns, 1) * 2
    with torch.no_grad():
        m(xs)
        vd = m.variational_strategy._variational_distribution
        Lq = 0.3 * torch.eye(M) + 0.1 * torch.randn(M, M).tril()
        Lq = Lq.tril(-1) + torch.diag(Lq.diagonal().abs() + 0.05)
        vd.chol_variational_covar.copy_(Lq); vd.variational_mean.copy_(torch.randn(M) * 0.5)
        m.train(); m.eval()
        q = m(xs)
        with gpytorch.settings.fast_pred_var(fpv):
            am = m.variational_strategy.amortized_exact_gp()
            a = am(xs)
            print(f"seed {seed} fpv={fpv}: amortized exact GP vs q(f): mean {(a.mean - q.mean).abs().max().item():.3e} cov {(a.covariance_matrix - q.covariance_matrix).abs().max().item():.3e}  var increase {(a.variance - q.variance).max().item():.3e}")
for fpv in (False, True):
    for s in (0, 2):
        run2(s, fpv)
